/-
  Spec vocabulary for C19 (the thread model `Simpleline/Model/Threads.lean`).

  * `TReach src0 s`      — `s` is the state after some schedule accepted from `initState src0`
  * `submitted sched`     — the ids of the signals whose submission begins in the schedule (`submit`, `newLoop`)
  * `DistinctIds sched`   — these ids are pairwise distinct (the harness generates distinct ids)
  * `PC.holdsMain` / `holdsSrc q` / `holdsOrd q` — the code positions at which a thread holds the main lock /
    queue `q`'s source lock / queue `q`'s order lock
  * `TState.preIds`, `entryIds`, `dispatchedIds` — where a signal id can be: still in the hands of the thread
    that submits it (before its `put`), in some queue, or dispatched
  * `evsOf t sched`, `askNo`, `askYes` — projections of a schedule used by the routing theorem
-/
import Simpleline.Model.Threads

namespace Simpleline.Threads

/-- `s` is reachable: it is the state after some schedule accepted by `run` from the initial state -/
def TReach (src0 : List Nat) (s : TState) : Prop := ∃ sched, run (initState src0) sched = some s

/-! ### history vocabulary -/

/-- the signal id an event introduces (the thread-local beginning of a submission) -/
def Ev.newId : Ev → List Nat
  | .submit sg => [sg.sid]
  | .newLoop sg => [sg.sid]
  | _ => []

/-- the ids of all signals whose submission begins in the schedule, in order -/
def submitted (sched : List (Nat × Ev)) : List Nat := sched.flatMap fun x => x.2.newId

/-- the signal ids of all `submit` / `newLoop` events of the schedule are pairwise distinct -/
def DistinctIds (sched : List (Nat × Ev)) : Prop := (submitted sched).Nodup

instance (sched : List (Nat × Ev)) : Decidable (DistinctIds sched) :=
  inferInstanceAs (Decidable (List.Nodup _))

/-- the events of thread `t` in the schedule, in order -/
def evsOf (t : Nat) (sched : List (Nat × Ev)) : List Ev := (sched.filter fun x => x.1 == t).map (·.2)

/-- the three accesses of asking level `l` "is `src` yours?" with the answer no / yes -/
def askNo (src : Option Nat) (l : Nat) : List Ev := [.acqQ l, .contains l src false, .relQ l]
def askYes (src : Option Nat) (l : Nat) : List Ev := [.acqQ l, .contains l src true, .relQ l]

/-- a write to `MainLoop._event_queues` -/
def Ev.isLevelWrite : Ev → Bool
  | .lvAppend _ => true
  | .lvPop _ => true
  | _ => false

/-- no event of the list writes `MainLoop._event_queues` -/
def NoLevelWrite (l : List (Nat × Ev)) : Prop := ∀ x ∈ l, x.2.isLevelWrite = false

/-- Thread `t` is inside the critical section of `enqueue_signal` it entered last: the schedule so far is
`pre0 ++ (t, lvIter lv) :: mid` where `lv` is the level list it read (`reversed(self._event_queues)`), nobody
has written the level list since (`mid` has no `lvAppend`/`lvPop`), and `t`'s own accesses since are exactly
`evs`. -/
def CritSec (t : Nat) (sched : List (Nat × Ev)) (lv : List Nat) (evs : List Ev) : Prop :=
  ∃ pre0 mid, sched = pre0 ++ (t, .lvIter lv) :: mid ∧ NoLevelWrite mid ∧ evsOf t mid = evs

/-- Thread `t` is on the fallback path of the `enqueue_signal` it entered last: it read the level list `lv`,
asked every level of it (innermost first) under the main lock while nobody wrote the level list, got the answer
"not mine" from all, released the main lock, and its accesses since are exactly `evs`. -/
def Fallback (t : Nat) (sched : List (Nat × Ev)) (src : Option Nat) (evs : List Ev) : Prop :=
  ∃ pre0 lv mid1 mid2, sched = pre0 ++ (t, .lvIter lv) :: mid1 ++ (t, .relMain) :: mid2 ∧ NoLevelWrite mid1 ∧
    evsOf t mid1 = lv.reverse.flatMap (askNo src) ∧ evsOf t mid2 = evs

/-- the put records of a schedule: (queue, signal id, priority, arrival number), in order -/
def Ev.putRec : Ev → List (Nat × Nat × Int × Nat)
  | .put q sid prio o => [(q, sid, prio, o)]
  | _ => []
def puts (sched : List (Nat × Ev)) : List (Nat × Nat × Int × Nat) := sched.flatMap fun x => x.2.putRec

/-! ### lock ownership by code position -/

/-- the code positions inside `with self._lock:` of `MainLoop` -/
def PC.holdsMain : PC → Bool
  | .iterStart _ | .iter _ _ | .asking _ _ _ | .asked _ _ _ _ => true
  | .putAcq _ _ f | .putDo _ _ f | .putRel _ _ f => f
  | .relFound _ => true
  | .nlAppend _ _ | .nlRel _ _ | .clHold | .clPopped | .clSetActive _ | .clRel => true
  | _ => false

/-- the code positions inside `with self._lock:` of `EventQueue` number `q` -/
def PC.holdsSrc (q : Nat) : PC → Bool
  | .asking _ q' _ | .asked _ q' _ _ | .srcHold q' _ | .srcAdded q' => q' == q
  | _ => false

/-- the code positions inside `with self._order_lock:` of `EventQueue` number `q` -/
def PC.holdsOrd (q : Nat) : PC → Bool
  | .putDo _ q' _ | .putRel _ q' _ => q' == q
  | _ => false

/-- the code positions of `enqueue_signal` (the only ones a submitter thread can be at) -/
def PC.isSub : PC → Bool
  | .idle | .wantMain _ | .iterStart _ | .iter _ _ | .asking _ _ _ | .asked _ _ _ _
  | .putAcq _ _ _ | .putDo _ _ _ | .putRel _ _ _ | .relFound _ | .relNotFound _ | .fallback _ => true
  | _ => false

/-! ### structure -/

/-- every queue index a code position refers to is below `n` (the number of queue objects created so far) -/
def PC.valid (n : Nat) : PC → Prop
  | .iter _ todo => ∀ q ∈ todo, q < n
  | .asking _ q todo | .asked _ q todo _ => q < n ∧ ∀ q' ∈ todo, q' < n
  | .putAcq _ q _ | .putDo _ q _ | .putRel _ q _ => q < n
  | .nlRead q _ | .nlAppend q _ | .nlRel q _ => q < n
  | .clSetActive q => q < n
  | .srcWant q _ | .srcHold q _ | .srcAdded q => q < n
  | _ => True

/-- the snapshot `reversed(self._event_queues)` a submitter iterates over is still the truth: the levels
already asked followed by those still to ask are exactly the current levels, innermost first; a level
found under the main lock is still a level -/
def PC.snapOK (lv : List Nat) : PC → Prop
  | .iter _ todo => ∃ asked, lv.reverse = asked ++ todo
  | .asking _ q todo | .asked _ q todo _ => ∃ asked, lv.reverse = asked ++ q :: todo
  | .putAcq _ q f | .putDo _ q f | .putRel _ q f => f = true → q ∈ lv
  | _ => True

/-- what `_active_queue` is, by the code position of the loop thread: the queue just created by
`execute_new_loop` and not yet appended; the level just popped by `close_loop` (until the write of the new
top); otherwise the top level (or anything once the last level has been popped) -/
def PC.activeOK (lv : List Nat) (act : Nat) : PC → Prop
  | .nlRead q _ | .nlAppend q _ => act = q ∧ q ∉ lv
  | .clPopped => act ∉ lv
  | .clSetActive q => lv.getLast? = some q ∧ act ∉ lv
  | _ => lv.getLast? = some act ∨ lv = []

/-! ### where a signal id can be -/

/-- the id a thread at this code position still has in its hands (submitted, not yet put into a queue) -/
def PC.preId : PC → List Nat
  | .wantMain sg | .iterStart sg | .iter sg _ | .asking sg _ _ | .asked sg _ _ _
  | .putAcq sg _ _ | .putDo sg _ _ | .relNotFound sg | .fallback sg => [sg.sid]
  | .nlLock _ sg | .nlRead _ sg | .nlAppend _ sg | .nlRel _ sg => [sg.sid]
  | _ => []

/-- the id a thread at this code position has just put into a queue (its `enqueue_signal` has not returned yet) -/
def PC.postId : PC → List Nat
  | .putRel sg _ _ | .relFound sg => [sg.sid]
  | _ => []

/-- ids submitted but not yet put (one per thread that is inside `enqueue_signal` before its `put`) -/
def TState.preIds (s : TState) : List Nat := s.pcs.flatMap PC.preId
/-- ids waiting in some queue (all queue objects ever created, open or closed) -/
def TState.entryIds (s : TState) : List Nat := s.queues.flatMap fun x => x.entries.map (·.2.2)
/-- ids dispatched (newest first) -/
def TState.dispatchedIds (s : TState) : List Nat := s.dispatched.map (·.2)

/-- `id` waits in queue `q` -/
def TState.pendingIn (s : TState) (q id : Nat) : Prop := ∃ e ∈ (s.q q).entries, e.2.2 = id
/-- `id` waits in some queue or has been dispatched -/
def TState.stored (s : TState) (id : Nat) : Prop := (∃ q, s.pendingIn q id) ∨ id ∈ s.dispatchedIds

/-! ### concrete schedules used as non-vacuity examples in `Props/C19.lean` -/

/-- Threads 1 and 2 submit signals 10 and 11 (source 7, owned by level 0) while the loop thread (0) opens a
nested level (queue 1) in between, submits its seed 99 (no source: fallback path, lands in the new active queue
1), dispatches it, closes the level and dispatches 10 then 11. -/
def demoSchedule : List (Nat × Ev) :=
  [ (1, .submit ⟨10, some 7, 0⟩), (1, .acqMain), (1, .lvIter [0]), (1, .acqQ 0), (1, .contains 0 (some 7) true),
    (1, .relQ 0),
    (0, .newLoop ⟨99, none, 0⟩), (0, .activeWrite 1),
    (1, .acqO 0), (1, .put 0 10 0 0), (1, .relO 0), (1, .relMain),
    (2, .submit ⟨11, some 7, 0⟩),
    (0, .acqMain), (0, .activeRead 1), (0, .lvAppend 1), (0, .relMain),
    (2, .acqMain), (2, .lvIter [0, 1]), (2, .acqQ 1), (2, .contains 1 (some 7) false), (2, .relQ 1),
    (2, .acqQ 0), (2, .contains 0 (some 7) true), (2, .relQ 0), (2, .acqO 0), (2, .put 0 11 0 1), (2, .relO 0),
    (2, .relMain),
    (0, .acqMain), (0, .lvIter [0, 1]), (0, .acqQ 1), (0, .contains 1 none false), (0, .relQ 1),
    (0, .acqQ 0), (0, .contains 0 none false), (0, .relQ 0), (0, .relMain),
    (0, .activeRead 1), (0, .acqO 1), (0, .put 1 99 0 0), (0, .relO 1),
    (0, .activeRead 1), (0, .get 1 99),
    (0, .acqMain), (0, .lvPop 1), (0, .lvTop 0), (0, .activeWrite 0), (0, .relMain),
    (0, .get 0 10), (0, .get 0 11) ]

/-- thread 1 submits signal 20 without a source while the nested level 1 is open and reads `_active_queue` = 1;
the loop thread closes level 1; then thread 1 puts -/
def closedLevelSchedule : List (Nat × Ev) :=
  [ (0, .newLoop ⟨99, none, 0⟩), (0, .activeWrite 1), (0, .acqMain), (0, .lvAppend 1), (0, .relMain),
    (0, .acqMain), (0, .lvIter [0, 1]), (0, .acqQ 1), (0, .contains 1 none false), (0, .relQ 1),
    (0, .acqQ 0), (0, .contains 0 none false), (0, .relQ 0), (0, .relMain),
    (0, .activeRead 1), (0, .acqO 1), (0, .put 1 99 0 0), (0, .relO 1),
    (1, .submit ⟨20, none, 0⟩), (1, .acqMain), (1, .lvIter [0, 1]), (1, .acqQ 1), (1, .contains 1 none false),
    (1, .relQ 1), (1, .acqQ 0), (1, .contains 0 none false), (1, .relQ 0), (1, .relMain), (1, .activeRead 1),
    (0, .acqMain), (0, .lvPop 1), (0, .lvTop 0), (0, .activeWrite 0), (0, .relMain),
    (1, .acqO 1), (1, .put 1 20 0 1), (1, .relO 1) ]

/-- thread 1 submits 10 then 11 (no source: both land in queue 0 by the fallback path), the loop thread
dispatches both -/
def fifoSchedule : List (Nat × Ev) :=
  [ (1, .submit ⟨10, none, 0⟩), (1, .acqMain), (1, .lvIter [0]), (1, .acqQ 0), (1, .contains 0 none false),
    (1, .relQ 0), (1, .relMain), (1, .activeRead 0), (1, .acqO 0), (1, .put 0 10 0 0), (1, .relO 0),
    (1, .submit ⟨11, none, 0⟩), (1, .acqMain), (1, .lvIter [0]), (1, .acqQ 0), (1, .contains 0 none false),
    (1, .relQ 0), (1, .relMain), (1, .activeRead 0), (1, .acqO 0), (1, .put 0 11 0 1), (1, .relO 0),
    (0, .get 0 10), (0, .get 0 11) ]

/-- thread 1 submits the *same* id 5 twice (both land in queue 0 by the fallback path), the loop thread
dispatches one of them -/
def dupSchedule : List (Nat × Ev) :=
  [ (1, .submit ⟨5, none, 0⟩), (1, .acqMain), (1, .lvIter [0]), (1, .acqQ 0), (1, .contains 0 none false),
    (1, .relQ 0), (1, .relMain), (1, .activeRead 0), (1, .acqO 0), (1, .put 0 5 0 0), (1, .relO 0),
    (1, .submit ⟨5, none, 0⟩), (1, .acqMain), (1, .lvIter [0]), (1, .acqQ 0), (1, .contains 0 none false),
    (1, .relQ 0), (1, .relMain), (1, .activeRead 0), (1, .acqO 0), (1, .put 0 5 0 1), (1, .relO 0),
    (0, .get 0 5) ]

end Simpleline.Threads
