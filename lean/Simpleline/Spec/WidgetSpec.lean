/-
  Specification-level vocabulary for C13 / C16 (definitions only).
-/
import Simpleline.Model.Widgets
import Simpleline.Spec.GridSpec

namespace Simpleline

/-! ### C16: forgetting the object state -/

mutual
  /-- the widget tree with every Python object's mutable rendering state forgotten: buffers, cursors,
  remembered number labels, remembered columns width -/
  def Wd.reset : Wd → Wd
    | .text _ t => .text {} t
    | .sep _ n => .sep {} n
    | .center _ c => .center {} c.reset
    | .checkbox _ k t x c => .checkbox {} k t x c
    | .window _ title items => .window {} title (resetList items)
    | .list _ cm cols cw sp kp _ _ items => .list {} cm cols cw sp kp none [] (resetList items)
  def resetList : List Wd → List Wd
    | [] => []
    | x :: xs => x.reset :: resetList xs
end

/-! ### C13: the layout of a list container -/

/-- the columns width in use (`_used_columns_width`) -/
def usedWidth (cw : Option Int) (columns spacing : Nat) (w : Int) : Int :=
  match cw with
  | some c => c
  | none => Int.tdiv (w - ((columns : Int) - 1) * spacing) columns

/-- the first buffer row of layout row `r`: the sum of the heights of the rows above -/
def rowTop (rowH : Nat → Nat) : Nat → Nat
  | 0 => 0
  | r + 1 => rowTop rowH r + rowH r

/-- the first character column of layout column `c` when every item respects its width -/
def colLeft (used : Int) (spacing c : Nat) : Nat := c * (used.toNat + spacing)

end Simpleline

namespace Simpleline

/-- the length of the label text of item `i` (0 without numbering): the item is drawn that many
columns right of its band's left edge -/
def labelLen (labels : List (Option NumW)) (i : Nat) : Nat :=
  match labels.getD i none with
  | some nw => nw.text.length
  | none => 0

/-- the rendered label of item `i` (no rows without numbering) -/
def labelBuf (labels : List (Option NumW)) (i : Nat) : Grid :=
  match labels.getD i none with
  | some nw => nw.st.buf
  | none => []

/-- Everything that is drawn respects the room it was rendered for: a label renders to at most one
row no longer than its text and leaves room for the item; every row of an item's rendering is no
longer than the columns width minus the label. (For `TextWidget` items this is C11; for labels it is
C11 at the label's own length; nested containers without a forced width satisfy it by
`C13_within_width`.) -/
structure LayoutOK (used : Int) (labels : List (Option NumW)) (grids : List Grid) : Prop where
  used_pos : 0 < used
  len : labels.length = grids.length
  item_fits : ∀ i, (hi : i < grids.length) → ∀ row ∈ grids[i], (row.length : Int) + labelLen labels i ≤ used
  label_rows : ∀ i, i < grids.length → (labelBuf labels i).length ≤ 1
  label_fits : ∀ i, i < grids.length → ∀ row ∈ labelBuf labels i, row.length ≤ labelLen labels i
  label_room : ∀ i, i < grids.length → (labelLen labels i : Int) < used ∨ labelBuf labels i = []

end Simpleline
