#!/bin/sh
# Build the Lean development (model, proofs) and the native model driver. Offline.
set -e
cd "$(dirname "$0")/lean"
lake build 2>&1 | tail -5
