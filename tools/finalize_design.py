#!/usr/bin/env python3
"""Fill the measured numbers and the seeded-changes table into DESIGN.md (placeholders in capitals); the values sit between HTML comment markers and are refreshed by every run."""
import glob, os, re, subprocess
HERE = os.path.dirname(os.path.dirname(os.path.abspath(__file__)))
L = os.path.join(HERE, "lean")
def lines(pat): return sum(len(open(f).read().split("\n")) for f in glob.glob(os.path.join(L, pat)))
def fmt(n): return "{:,}".format(n).replace(",", " ")
props = glob.glob(os.path.join(L, "Simpleline/Props/*.lean"))
theorems = sum(len(re.findall(r"^theorem\s", open(f).read(), re.M)) for f in props)
table = subprocess.run(["python3", os.path.join(HERE, "tools", "seeded_table.py")], stdout=subprocess.PIPE).stdout.decode()
s = open(os.path.join(HERE, "DESIGN.md")).read()
rep = {"MODEL_LINES": fmt(lines("Simpleline/Model/*.lean")), "SPEC_LINES": fmt(lines("Simpleline/Spec/*.lean")), "LEMMA_LINES": fmt(lines("Simpleline/Lemmas/*.lean")),
       "LEMMA_FILES": str(len(glob.glob(os.path.join(L, "Simpleline/Lemmas/*.lean")))), "PROPS_LINES": fmt(lines("Simpleline/Props/*.lean")), "PROPS_FILES": str(len(props)),
       "THEOREM_COUNT": str(theorems), "DRIVER_LINES": fmt(lines("Driver/*.lean")), "SEEDED_TABLE_PLACEHOLDER": table.strip()}
for k, v in rep.items():
    # first run: bare placeholder -> marked value; later runs: refresh the marked value
    pat = re.compile(r"<!--%s-->.*?<!---->" % k, re.S)
    new = "<!--%s-->%s<!---->" % (k, ("\n" + v + "\n") if "\n" in v else v)
    if pat.search(s): s = pat.sub(lambda m: new, s)
    else: s = s.replace(k, new)
open(os.path.join(HERE, "DESIGN.md"), "w").write(s)
print({k: (v if len(v) < 30 else "...") for k, v in rep.items()})
