#!/venv/bin/python
"""Differential validation of the Lean GLib machine (lean/Simpleline/Model/GMachine.lean, driver op `gmachine`) against the real
simpleline/event_loop/glib_event_loop.py running over the stand-in harness/impl/fakegi.

    cd /verif && VERIF_REPO=/tmp/mut/clean /venv/bin/python tools/gmachine_diff.py [--seed N] [--n N] [--modes loop,app,...] [--show K] [--dump FILE]

Every generated case is run on the real GLibEventLoop (`run_real(case, "glib")`, normalised like C20.run_impl / session.norm_outcome) and on
the model; log / outcome / stdout are compared with the logic of session.compare.  Cases cut by a budget on either side (outcome fuel) are not
compared.  The model's outcome `livelock` (a waiting call that spins for ever on non-blocking iterations) corresponds to the stand-in's
`Blocked` after 200 idle spins / 20000 calls, i.e. to the implementation outcome `blocked`: those cases ARE compared (log, stdout).
"""
import argparse, json, os, random, sys, time
sys.path.insert(0, os.path.dirname(os.path.dirname(os.path.abspath(__file__))))
if "VERIF_REPO" not in os.environ:
    sys.stderr.write("warning: VERIF_REPO is not set - running against /repo itself\n")

from harness.props.session import with_cc, norm_outcome, model_case, MODEL_FUEL
from harness.gen.sessions import gen_case, SidCounter
from harness.driver import run_model

ALL_MODES = ["loop", "app", "tame", "c01", "c10", "c10modal", "flat", "waitraise", "c02", "fqh"]


def gen_fqh(rnd, sid):
    """force_quit() called from a handler while further handlers are registered for the same class (and for the classes of signals being dispatched at outer
    nesting levels: the force-quitting handler may run inside a processing call / nested loop opened by a handler that has successors too)"""
    ncls = rnd.randint(1, 2); handlers = []
    def enq(): return ["enq", "U%d" % rnd.randrange(ncls), rnd.choice([0, 0, 1, -1]), None, sid.next()]
    def script(k):
        if k == "fq": return [a for a in ([enq()] if rnd.random() < 0.3 else [])] + [["force_quit"]] + [rnd.choice([enq(), ["proc", None], ["new_loop", "U0", 0, sid.next()], ["close_loop"]]) for _ in range(rnd.choice([0, 0, 1, 2]))]
        if k == "nest": return [enq(), rnd.choice([["proc", None], ["proc", "U%d" % rnd.randrange(ncls)], ["new_loop", "U%d" % rnd.randrange(ncls), 0, sid.next()]])]
        return [enq() for _ in range(rnd.choice([0, 0, 1]))]
    for c in range(ncls):
        n = rnd.randint(2, 4); quitter = rnd.randrange(n - 1)          # never the last one: somebody is registered behind it
        for i in range(n):
            kinds = ["fq" if (i == quitter and rnd.random() < 0.8) else rnd.choice(["plain", "plain", "nest"]) for _ in range(rnd.randint(1, 4))]
            if i == quitter and c == 0 and "fq" not in kinds: kinds[rnd.randrange(len(kinds))] = "fq"
            handlers.append(dict(cls="U%d" % c, hid=len(handlers), data=rnd.choice([None, 7]), scripts=[script(k) for k in kinds]))
    init = [enq() for _ in range(rnd.randint(1, 5))]
    return dict(op="machine", mode="loop", width=80, screens=[], handlers=handlers, init=init, stdin=[], quit_cb=rnd.choice([None, 9]), quit_screen=None,
                exc_handler=rnd.random() < 0.3, run_empty=True, deliver_at=[])


def gen(mode, rnd, sid):
    if mode in ("loop", "app", "tame"): c = gen_case(rnd, mode, sid)
    elif mode == "c01":
        from harness.props.C01 import gen_c01; c = gen_c01(rnd, sid)
    elif mode == "c10":
        from harness.props.C10 import gen_c10; c = gen_c10(rnd, sid)
    elif mode == "c10modal":
        from harness.props.C10 import gen_c10_modal; c = gen_c10_modal(rnd, sid)
    elif mode == "c02":
        from harness.props.C02 import gen_c02; c = gen_c02(rnd, sid)
    elif mode == "flat":
        from harness.props.C20 import gen_flat; c = gen_flat(rnd, sid)
    elif mode == "fqh": c = gen_fqh(rnd, sid)
    elif mode == "waitraise":
        from harness.props.C20 import gen_wait_raise; c = gen_wait_raise(rnd, sid)
    else: raise SystemExit("unknown mode " + mode)
    c = dict(c); c["deliver_at"] = []; c["_gmode"] = mode
    return with_cc(c)


def run_glib(case):
    from harness.impl.app import run_real
    try:
        o, log, out = run_real(case, "glib")
        return {"outcome": norm_outcome(json.loads(json.dumps(o))), "log": json.loads(json.dumps(log)), "out": out}
    except BaseException as e:
        if isinstance(e, KeyboardInterrupt): raise
        return {"outcome": ["crash", repr(e)], "log": [], "out": ""}


def compare(case, impl, model):
    """session.compare, with the model's livelock = the stand-in's Blocked"""
    if model.get("outOfScope"): return "SKIP"
    raw = list(model["outcome"])
    mo = ["blocked"] if raw[0] == "livelock" else norm_outcome(raw)
    io = impl["outcome"]
    if mo == ["fuel"] or io == ["fuel"]: return "SKIP"
    if impl["log"] != model["log"]:
        a, b = impl["log"], model["log"]
        b = [([e[0], e[1], None] + e[3:] if e[0] == "H" and k < len(a) and a[k][0] == "H" and a[k][2] is None else e) for k, e in enumerate(b)]
        k = next((i for i in range(min(len(a), len(b))) if a[i] != b[i]), min(len(a), len(b)))
        if k < max(len(a), len(b)):
            return "event #%d: implementation %r / model %r" % (k, a[k] if k < len(a) else None, b[k] if k < len(b) else None)
    if io != mo: return "outcome: implementation %r / model %r" % (io, raw)
    if impl["out"] != model["out"]:
        a, b = impl["out"], model["out"]
        k = next((i for i in range(min(len(a), len(b))) if a[i] != b[i]), min(len(a), len(b)))
        return "stdout differs at %d: implementation %r / model %r" % (k, a[max(0, k - 40):k + 40], b[max(0, k - 40):k + 40])
    return None


def main():
    ap = argparse.ArgumentParser()
    ap.add_argument("--seed", type=int, default=1); ap.add_argument("--n", type=int, default=400, help="cases per mode")
    ap.add_argument("--modes", default=",".join(ALL_MODES)); ap.add_argument("--show", type=int, default=5)
    ap.add_argument("--dump", default=None, help="write the disagreeing cases (JSON lines) to this file")
    a = ap.parse_args()
    modes = a.modes.split(","); t0 = time.time()
    total = dict(cases=0, compared=0, skipped=0, bad=0); bad = []; per = {}; cover = {}; flags = {}
    for mode in modes:
        rnd = random.Random("%s/%d" % (mode, a.seed)); sid = SidCounter()
        cases = [gen(mode, rnd, sid) for _ in range(a.n)]
        mcases = []
        for c in cases:
            m = model_case(c)
            mcases.append(None if m is None else dict(m, op="gmachine", fuel=MODEL_FUEL))
        idx = [i for i, m in enumerate(mcases) if m is not None]
        models = run_model([mcases[i] for i in idx]) if idx else []
        st = dict(cases=len(cases), compared=0, skipped=len(cases) - len(idx), bad=0, outcomes={}, nontrivial=0)
        for i, model in zip(idx, models):
            impl = run_glib(cases[i])
            r = compare(cases[i], impl, model)
            if r == "SKIP": st["skipped"] += 1; continue
            st["compared"] += 1
            for nm in model.get("instrs", []): cover[nm] = cover.get(nm, 0) + 1
            for nm in model.get("flags", []): flags[nm] = flags.get(nm, 0) + 1
            k = impl["outcome"][0] + ("(livelock)" if model["outcome"][0] == "livelock" else ""); st["outcomes"][k] = st["outcomes"].get(k, 0) + 1
            if len(impl["log"]) >= 4: st["nontrivial"] += 1
            if r is not None:
                st["bad"] += 1; bad.append((mode, i, r, cases[i], impl, model))
        per[mode] = st
        for k in ("cases", "compared", "skipped", "bad"): total[k] += st[k]
        print("%-10s cases %5d  compared %5d  not compared (fuel / model-less) %4d  nontrivial %5d  DISAGREE %4d   %s" % (
            mode, st["cases"], st["compared"], st["skipped"], st["nontrivial"], st["bad"], st["outcomes"]), flush=True)
    print("TOTAL      cases %5d  compared %5d  not compared %4d  DISAGREE %4d   (seed %d, %.0f s, repo %s)" % (
        total["cases"], total["compared"], total["skipped"], total["bad"], a.seed, time.time() - t0,
        os.path.dirname(os.path.dirname(sys.modules["simpleline"].__file__)) if "simpleline" in sys.modules else "?"))
    print("model instructions exercised in compared cases (#cases):", " ".join("%s:%d" % kv for kv in sorted(cover.items())))
    print("history flags of compared cases (#cases):", " ".join("%s:%d" % kv for kv in sorted(flags.items())))
    for mode, i, r, case, impl, model in bad[:a.show]:
        print("-" * 100); print("[%s #%d] %s" % (mode, i, r))
        print("case:", json.dumps({k: v for k, v in case.items() if k != "cc"}))
        print("impl :", impl["outcome"], json.dumps(impl["log"][:60]))
        print("model:", model["outcome"], json.dumps(model["log"][:60]), model.get("flags"))
    if a.dump:
        with open(a.dump, "w") as f:
            for mode, i, r, case, impl, model in bad: f.write(json.dumps({"mode": mode, "why": r, "case": case}) + "\n")
    return 1 if total["bad"] else 0


if __name__ == "__main__":
    sys.exit(main())
