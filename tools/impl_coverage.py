#!/venv/bin/python
"""Which lines / branches of /repo/simpleline do the correspondence runs execute?  (A measurement aid for the generators, not a check: the quick-tier cases of every
property - a sample of at most N per property - are run through the adapters under coverage.py; the report lists what no case reaches.)

usage: cd /verif && [VERIF_REPO=<worktree>] /venv/bin/python tools/impl_coverage.py [N per property, default 400] [property ids ...]
"""
import os, sys, random, subprocess, json
VERIF = os.path.dirname(os.path.dirname(os.path.abspath(__file__)))
sys.path.insert(0, VERIF)
REPO = os.environ.get("VERIF_REPO", "/repo")
OUT = os.path.join(VERIF, "out", "cov")
PROPS = ["C%02d" % i for i in range(1, 21)]


def one(prop, n):
    import coverage, importlib
    os.makedirs(OUT, exist_ok=True)
    cov = coverage.Coverage(data_file=os.path.join(OUT, ".coverage." + prop), source=[os.path.join(REPO, "simpleline")], branch=True)
    mod = importlib.import_module("harness.props." + prop)
    rnd = random.Random(0)
    cases = (list(mod.corpus()) if hasattr(mod, "corpus") else []) + list(mod.generate(rnd, "quick"))
    if len(cases) > n:
        step = len(cases) / float(n); cases = [cases[int(i * step)] for i in range(n)]
    cov.start()
    ran = 0
    for c in cases:
        try: mod.run_impl(c); ran += 1
        except BaseException: pass
    cov.stop(); cov.save()
    print(prop, "cases", ran)


def main():
    args = sys.argv[1:]
    if args and args[0] == "--one":
        one(args[1], int(args[2])); return
    n = int(args[0]) if args and args[0].isdigit() else 400
    props = [a for a in args if a.startswith("C")] or [p for p in PROPS if p != "C19"]      # (C19 drives its threads with sys.settrace itself)
    ps = [subprocess.Popen([sys.executable, os.path.abspath(__file__), "--one", p, str(n)], cwd=VERIF, env=dict(os.environ, PYTHONHASHSEED="0", LANG="C", LC_ALL="C")) for p in props]
    for p in ps: p.wait()
    import coverage
    cov = coverage.Coverage(data_file=os.path.join(OUT, ".coverage"), branch=True)
    cov.combine([os.path.join(OUT, ".coverage." + p) for p in props if os.path.exists(os.path.join(OUT, ".coverage." + p))], keep=True)
    cov.save()
    cov.report(show_missing=True, skip_empty=True, file=sys.stdout)


if __name__ == "__main__":
    main()
