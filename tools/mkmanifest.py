#!/usr/bin/env python3
"""Regenerate MANIFEST.json from the table below (run from /verif)."""
import json, os
HERE = os.path.dirname(os.path.dirname(os.path.abspath(__file__)))
props = [json.loads(l) for l in open(os.path.join(HERE, "properties.jsonl"))]
TB = ("Trusted: Lean 4.33.0 kernel and the axioms printed by #print axioms for each theorem (subset of propext, Classical.choice, Quot.sound; no sorry, "
      "no native_decide); the Python correspondence harness and the JSON glue of the Lean driver; the named Python-semantics assumptions. "
      "The theorems are about the hand-written Lean model; the model is tied to /repo on every run by running model and implementation on the same "
      "generated cases (differences are reported), not by translation. ")
CLAIMED = {
 "C11": ("Theorems for every CharClass, text and width >= 1 over the Lean model of textwrap.wrap + Widget._wrap_words + the typewriter: width, conservation of "
         "non-blank characters in order, line-break structure, no empty wrap line, blank lines, refusal, termination of the wrap loop. Correspondence: "
         "exhaustive small strings + random texts through TextWidget.render and textwrap.wrap; oracle recomputes the clauses (incl. an independent greedy reference) on the implementation.",
         "7 C11", TB + "A-TW (textwrap semantics) and the per-case character classes are assumptions exercised, not proved. The 'exactly greedy' clause is proved as structure (C11_breaks, C11_no_empty_line) and checked against an independent greedy reference only by the oracle."),
 "C12": ("Theorems over the model of UIScreen._print_widget (paging: every line once, request positions and count), WindowContainer.render (title part ++ items in order), "
         "SeparatorWidget and Prompt (finite-map options, key-sorted listing, str format). Correspondence: exhaustive heights x lengths, prompt edit sequences, random windows.",
         "7 C12", TB + "Heights <= 2 are outside the model (the code loops forever there). The composition into whole-screen draws through the real scheduler is covered by the session checks that share this model."),
 "C13": ("Theorems over the model of ListRowContainer/ListColumnContainer: cell bijection (row-/column-major), refusal conditions, what render draws, placement of every item and label "
         "character at the closed-form position of its cell, row heights, disjoint bands/rows, fit within the requested width. Correspondence: random flat and nested containers; oracle = closed-form placement recomputed in Python.",
         "7 C13", TB + "Placement theorems assume every drawn grid respects the width it was rendered for (hypothesis LayoutOK, discharged for TextWidget items by C11)."),
 "C14": ("Theorems: label = pattern around decimal(i+offset); int(decimal z) = z; a key is handled iff it reads as the displayed number of an existing item, and then exactly that item's "
         "callback position is reached; everything else selects nothing. Correspondence: exhaustive offsets x counts x key set, int() on exhaustive/random strings.",
         "7 C14", TB + "A-INT (int(str) semantics) is an assumption exercised by the int cases. Reading of 'exactly what is displayed': the number, as int() reads it."),
 "C15": ("Theorems for every buffer, source, position, text and width: draw (height, rows, row lengths, inside = source, outside unchanged or blank padding, cursor) and the typewriter "
         "(position = path, i-th character at the i-th path position, path strictly increasing and within the width, frame). Correspondence: exhaustive tiny grids + random; oracle re-derives every cell.",
         "7 C15", TB + "Domain: non-negative row/col."),
 "C16": ("Theorem: for every widget tree in ANY object state and every width, render gives the same result as on the tree with all state forgotten; render changes state only. Corollaries: render twice, "
         "other width in between, add after render. Correspondence: random render/add sequences on kept objects; oracle compares with a freshly built equal tree and scans the rendering modules for module-level state.",
         "7 C16", TB + "ColumnWidget only as used by CheckboxWidget; negative draw columns (CenterWidget with an over-wide child) are outside the model and not compared."),
}
TECH = "Lean 4 theorems over a hand-written executable model + differential correspondence check model vs implementation + Python oracle on the implementation"
checks = []; na = []
for p in props:
    i = p["id"]
    if i in CLAIMED and os.path.exists(os.path.join(HERE, "harness", "props", i + ".py")):
        text, ref, note = CLAIMED[i]
        checks.append({"property_id": i, "quick_cmd": "./check %s --tier quick" % i, "thorough_cmd": "./check %s --tier thorough" % i,
                       "evidence_file": "evidence/%s.json" % i, "replay_cmd_template": "./check replay {path}", "engine": "lean-model+correspondence",
                       "level_claimed": {"category": "proof", "text": text, "design_ref": "DESIGN.md section " + ref},
                       "level_note": note, "technique": TECH})
    else:
        na.append({"property_id": i, "reason": "check not built yet (work in progress; see DESIGN.md section 7)"})
m = {"version": 1, "setup_cmd": "./setup.sh",
     "hooks": {"guard": "SIMPLELINE_VERIF", "enable": "no hooks: the harness imports simpleline from /repo's working tree unchanged and patches only below the repo (stdlib) and at the repo's own test seam",
               "baseline_off_cmd": "cd /repo && /venv/bin/python -m pytest -ra -q -p no:cacheprovider --timeout=900 --continue-on-collection-errors",
               "source_commits": [], "add_only": True},
     "engines": [{"name": "lean-model+correspondence", "path": "lean/ harness/ check", "serves_properties": [c["property_id"] for c in checks],
                  "kind_free_text": "Lean 4 model and theorems (lean/Simpleline), native model driver (lean/Driver), Python correspondence harness and oracles (harness/)"}],
     "checks": checks, "not_applicable": na,
     "notes": "fix: commits in /repo repair the defects recorded as 'fixed' in known_findings.json; see DESIGN.md section 8."}
json.dump(m, open(os.path.join(HERE, "MANIFEST.json"), "w"), indent=1)
print("claimed:", [c["property_id"] for c in checks], "not applicable:", [x["property_id"] for x in na])
