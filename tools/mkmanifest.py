#!/usr/bin/env python3
"""Regenerate MANIFEST.json from the table below (run from /verif)."""
import json, os
HERE = os.path.dirname(os.path.dirname(os.path.abspath(__file__)))
props = [json.loads(l) for l in open(os.path.join(HERE, "properties.jsonl"))]
TB = ("Trusted: Lean 4.33.0 kernel and the axioms printed by #print axioms for each theorem (subset of propext, Classical.choice, Quot.sound; no sorry, "
      "no native_decide); the Python correspondence harness and the JSON glue of the Lean driver; the named Python-semantics assumptions. "
      "The theorems are about the hand-written Lean model; the model is tied to /repo on every run by running model and implementation on the same "
      "generated cases (differences are reported), not by translation. ")

SES = ("Session properties are checked on the abstract machine lean/Simpleline/Model/Machine.lean (MainLoop + ScreenScheduler + input pipeline as one instruction-list machine, programs = tables of public-API "
       "actions), validated against the real code on every run: exact callback/handler sequence, exact stdout, outcome. ")
CLAIMED_SESSION = {
 "C01": ("Theorems: the queue is a stable priority queue (put places a signal behind everything at least as urgent), every queue of every reachable configuration is sorted, every take (main loop, waiting and non-waiting "
         "processing) removes the head of the active queue, nothing else removes or reorders entries, each queue equals the replay of the history's enq/take events (C01_history). Correspondence: loop programs with 4..40 "
         "equal-priority signals, urgent arrivals mid-batch, nested loops; oracle: most-urgent-then-oldest at every dispatch, per level. Props/C01b: CPython's heapq modelled step for step (Model/Heapq.lean) keeps heap property and multiset and pops the minimum; EventQueue over it refines the "
         "machine's sorted-list queue for every operation sequence (C01b_sequence_refines); the real EventQueue's heap array is compared with the model's after every call.", "7 C01, 17",
         SES + "The former assumption A-PQ (heapq contract) is discharged by Props/C01b; what remains trusted there is that CPython's C heapq is Lib/heapq.py (checked by the heap-array comparison)."),
 "C02": ("Theorems: every handler call is for a handler registered for exactly the signal's class with its data; calls come only from the dispatch instruction visiting the live list in index order; an ordinary exception unwinds "
         "exactly to the handler's catcher, enqueues exactly one exception signal of priority -20 and the next handler runs; -20 overtakes everything less urgent; the kill path. Correspondence: raising subsets, derived signal "
         "classes, closes before raises; oracle: per-signal handler sequences, exceptions surface, kill = status 1 + blank line + stack dump + traceback.", "7 C02",
         SES + "The trace-level 'exactly once per completed dispatch' clause is proved at instruction level (dispatch index order) and checked on sessions by the oracle."),
 "C03": ("Theorems: routing (innermost level owning the source, else the active one), active = top level, every take is from the top level, signals held in non-top levels are never removed or reordered (multi-step: until taken), "
         "source sets of non-active levels are fixed, open/close effects; and (Props/C03b, global code-shape invariant) the _mainloop activation of a level returns only after the level was closed, the caller's continuation is untouched "
         "and resumed (under the decidable history hypotheses WFClose/WFDrain, shown necessary by kernel-checked counterexamples = known finding K1). Correspondence/oracle: routing recomputed from the API log, levels at return of execute_new_loop. Props/C03c: the EventQueue object's source API (add / remove / contains / "
         "enqueue_if_source_belongs) is a finite set with the documented error, conditional puts enqueue iff registered, and the heap refinement of C01b extends to all seven calls; compared with the real class on call sequences.",
         "7 C03, 17", SES + "K1 (second close before the innermost _mainloop regained control) is a known finding, excluded by WFClose/WFDrain; classified per case by the model's history flags."),
 "C04": ("Theorems: refinement to an ideal stack (every transition changes the stack exactly as one ideal operation or not at all; replace keeps the modal flag; fresh entry identities), entries beneath keep their order, a screen is drawn "
         "only while it is the top entry (the entry itself, by identity), the drawn entry is the ideal stack's top in the history, empty stack ends. Correspondence/oracle: one ideal operation between observations, API operations' ideal effect, drawn = top, a top entry leaves only through closed() or a failed setup. Props/C04b: the ScreenStack class "
         "under arbitrary call sequences refines an ideal list (pop-after-append, add-first keeps the top, order beneath, size, dump order); compared with the real class.",
         "7 C04, 17", SES + "The refresh-of-a-covered-screen case (setup changing the stack) is stated as it is (C04_refresh_top) with its counterexample."),
 "C05": ("Theorems (Props/C05 over the code-shape invariant of Lemmas/Shape*): modal entries correspond to nested levels; push_screen_modal returns only after its level was closed, which only the close / failed setup of the modal entry or its replacement requests; "
         "while it is open nothing beneath is refreshed or drawn and the entries beneath stay in place (under WFClose/WFDrain/WFQuiet, shown necessary). Correspondence/oracle: events between call and return of push_screen_modal, stack at return.",
         "7 C05", SES + "K1 and K2 (close_loop drains pending signals of the closing level: the parent is processed inside the nested loop) are known findings, classified by the model's history flags."),
 "C06": ("Theorems: the line read from the console is carried unmodified through InputReceived -> InputReady -> one-shot callback -> input(); EOF = empty line; the callback belongs to the asking screen with the arguments of that request; "
         "one line per delivery, one InputReceived, one successful InputReady, at most one input() call; lines consumed in order, at most one reader. Correspondence/oracle: tame/app/dialog sessions; keys = subsequence of reads, receiver = most recent accepted requester, no hang with an undelivered line.",
         "7 C06", SES + "Liveness is checked by the oracle on sessions, not proved. Reader timing is pinned at delivery points (instruction granularity)."),
 "C07": ("Theorems: the classification table (both directions), the act step does exactly one thing per action (InputOutcome), the quit-dialog branch, the per-screen rejection counter (+1 / reset / independence), an exception in input() is contained. "
         "Correspondence/oracle: an independent reference interpreter of the property predicts the whole callback sequence for value-only input() scripts, incl. 5/10 rejections and all dialog answers.", "7 C07", SES),
 "C08": ("Theorems: who calls which callback with which arguments (full table), callbacks are logged only by their call step, ready is set only by a setup that ran the base method and never reset, no setup once ready, setup before refresh on the log, "
         "refresh before show (trace and log), failed setup is discarded without refresh/draw/prompt, #closed callbacks + pending = #close operations. Correspondence/oracle: per-screen lifecycle checks with nested activations.", "7 C08",
         SES + "Known finding K3: a setup() that pushes another screen and then fails gets the pushed screen discarded instead."),
 "C09": ("Theorems: after force-quit no handler call is ever added, enqueues are discarded, execute_new_loop is a no-op, loop tests exit; an exit request drops every pending instruction of every depth up to run()'s catcher; the quit callback is logged at most once "
         "with the registered argument; a returned run contains an exit or force-quit event; run() refuses an empty stack unless configured. Correspondence/oracle: stop requests at every depth/position, last modal screen closing, run() returns. The force-quit clause is also proved for the GLib machine (Props/C20b, C20b_force_quit_silences) and checked on the real "
         "GLib-based loop over the stand-in (finding F12, fixed).", "7 C09, 17", SES),
 "C10": ("Theorems: a released wait ends only after a take of exactly the awaited class since it began (any nesting) or unreleased only when its level was stopped; tickets start unmarked; one dispatch marks all waiters of the class; a marked ticket returns at the next check "
         "without another take; the non-waiting form takes one priority, never blocks, leaves the queue unchanged on a differing head. Correspondence/oracle: nested waits, same-named distinct classes, prompt return, single priority. Props/C10b: the TicketMachine class under arbitrary take / check / mark sequences: fresh tickets, refinement of the machine's flat ticket list "
         "(C10b_flat_is_machine), ready iff marked since taken and not yet consumed (history form), consumed once, a mark touches only its line; compared with the real class (random and exhaustive short sequences).", "7 C10, 17", SES),
 "C17": ("Theorems: the console is only appended to; every character written is newline, blank, '=', a framework literal character or a non-control character of an application string (no CR/backspace/ESC introduced; names reach the console only in the crash dump); "
         "every draw is preceded by exactly spacer(width) unless disabled; every written chunk (separator, window lines, prompts) has lines within the width at every width; the crash dump is the only exception (shown necessary). Correspondence: exact byte stream; oracle: regex over raw stdout.",
         "7 C17", SES + "Partial in the schedules dimension: the reader's prompt order relative to main-thread output is pinned by the harness."),
 "C18": ("Theorems: pipeline invariants (valid ids, at most one reader, processing flag), refusal iff another request is outstanding without bypass (forgotten again, nothing written), a reader is started iff none is processing, hand-off (newest gets the line unmodified and successful, "
         "each earlier one exactly one failed signal, idle afterwards), handler result fields and one-shot callback, the blocking wait returns iff received. Correspondence: bypassing screens and blocking requests in sessions; oracle: direct scenarios on InputHandler objects with an interpreter of the property.", "7 C18", SES),
 "C19": ("Theorems over lean/Simpleline/Model/Threads.lean (labelled transition system of single shared accesses; every schedule = every accepted event sequence): lock discipline, the level list changes only under the lock and the submitter's snapshot stays the truth, "
         "no duplicate ids, completed submissions are pending or dispatched, routing on the found and fallback paths, arrival numbers make equal priorities FIFO per queue. Correspondence = trace validation: the real code runs under a line-level controlled scheduler and its recorded shared accesses are replayed through the model.",
         "7 C19", "Trusted: Lean kernel + axioms as printed; the thread adapter (harness-side logging subclasses of internals, cooperative locks, sys.settrace scheduler). A-ATOM: switches between source lines only, never inside queue.py. Bytecode-level and free-threaded interleavings are outside the claim."),
 "C20": ("Theorem (lean/Simpleline/Model/GLoop.lean): on one level, for every state-passing handler program, on calm runs the GLib batch discipline and the MainLoop stable-priority discipline dispatch the same signals in the same order through the same program states; the need for Calm is a kernel-checked counterexample (G1). "
         "Correspondence: both Lean disciplines against the two real loops on flat programs; differential run of every loop/app/tame case on the real MainLoop and the real GLibEventLoop over a GLib stand-in, with Calm evaluated by the Lean machine; divergences on non-calm runs are known findings G1-G4.",
         "7 C20, 17", "Props/C20b (Model/GMachine.lean: GLibEventLoop over GLib main contexts under the same scheduler / input pipeline, compared with the real glib_event_loop.py over the stand-in on every non-flat case of every run): "
         "force-quit silences, calls only of registered handlers from the list snapshotted at enqueue, a batch = the attach-order ready sources of the least priority present. PARTIAL by construction: GLib is not installed, GLibEventLoop runs on harness/impl/fakegi (a stand-in written from the GLib docs, fidelity unverifiable here); the theorem covers the loop-level scheduling core on one level under Calm; nesting, waits, exceptions and the application layer are covered by the differential check only."),
}
CLAIMED = {
 "C11": ("Theorems for every CharClass, text and width >= 1 over the Lean model of textwrap.wrap + Widget._wrap_words + the typewriter: width, conservation of "
         "non-blank characters in order, line-break structure, no empty wrap line, blank lines, refusal, termination of the wrap loop. Correspondence: "
         "exhaustive small strings + random texts through TextWidget.render and textwrap.wrap; oracle recomputes the clauses (incl. an independent greedy reference) on the implementation.",
         "7 C11", TB + "A-TW (textwrap semantics) and the per-case character classes are assumptions exercised, not proved. The 'exactly greedy' clause is proved as structure (C11_breaks, C11_no_empty_line) and checked against an independent greedy reference only by the oracle."),
 "C12": ("Theorems over the model of UIScreen._print_widget (paging: every line once, request positions and count), WindowContainer.render (title part ++ items in order), "
         "SeparatorWidget and Prompt (finite-map options, key-sorted listing, str format). Correspondence: exhaustive heights x lengths, prompt edit sequences, random windows. Props/C12b: the library's own dialogs "
         "(ErrorDialog, PasswordDialog, YesNoDialog, HelpScreen, GetInputScreen) as views: window = title, blank line, (centred) message, one separator line; every line within the width; exact prompt strings; compared with the real classes at every width.",
         "7 C12, 17", TB + "Heights <= 2 are outside the model (the code loops forever there). The composition into whole-screen draws through the real scheduler is covered by the session checks that share this model."),
 "C13": ("Theorems over the model of ListRowContainer/ListColumnContainer: cell bijection (row-/column-major), refusal conditions, what render draws, placement of every item and label "
         "character at the closed-form position of its cell, row heights, disjoint bands/rows, fit within the requested width. Correspondence: random flat and nested containers; oracle = closed-form placement recomputed in Python.",
         "7 C13", TB + "Placement theorems assume every drawn grid respects the width it was rendered for (hypothesis LayoutOK, discharged for TextWidget items by C11)."),
 "C14": ("Theorems: label = pattern around decimal(i+offset); int(decimal z) = z; a key is handled iff it reads as the displayed number of an existing item, and then exactly that item's "
         "callback position is reached; everything else selects nothing. Correspondence: exhaustive offsets x counts x key set, int() on exhaustive/random strings.",
         "7 C14", TB + "A-INT (int(str) semantics) is an assumption exercised by the int cases. Reading of 'exactly what is displayed': the number, as int() reads it."),
 "C15": ("Theorems for every buffer, source, position, text and width: draw (height, rows, row lengths, inside = source, outside unchanged or blank padding, cursor) and the typewriter "
         "(position = path, i-th character at the i-th path position, path strictly increasing and within the width, frame). Correspondence: exhaustive tiny grids + random; oracle re-derives every cell.",
         "7 C15", TB + "Domain: non-negative row/col."),
 "C16": ("Theorem: for every widget tree in ANY object state and every width, render gives the same result as on the tree with all state forgotten; render changes state only. Corollaries: render twice, "
         "other width in between, add after render. Correspondence: random render/add sequences on kept objects; oracle compares with a freshly built equal tree and scans the rendering modules for module-level state.",
         "7 C16", TB + "ColumnWidget only as used by CheckboxWidget; negative draw columns (CenterWidget with an over-wide child) are outside the model and not compared."),
}
CLAIMED.update(CLAIMED_SESSION)
# later rounds: further theorem files and what they add (DESIGN.md section 16)
LATER = {
 "C04": " After the repair F11 a close request is an ideal close that is refused unless it names the top screen (C04_refused_close_keeps_stack).",
 "C05": " After the repair F11 the hypothesis NoErr is needed only for C05_levels_match_modals (C05_shield_after_fix, C05_intact_after_fix, ...); K6 = a raising closed() remains a known finding.",
 "C06": " Props/C06b: the lines received by input() are an in-order subsequence of the lines read (C06_order_within_level) under the decidable history hypotheses NoReadyCovered and NoReadyReentry, both shown necessary by kernel-checked counterexamples replayed on the real code (known findings K5, K5r).",
 "C07": " Props/C07b: the library's own dialogs (YesNoDialog, PasswordDialog, HelpScreen, ErrorDialog, GetInputScreen) - return value and remembered state line by line and over sequences; compared with the real classes.",
 "C08": " After F11: the closed() callback is called only for an accepted close request (C08_close_step / C08_close_refused).",
 "C11": " Props/C11b: textwrap.wrap as modelled equals an independently defined greedy packing of its chunks (C11_wrap_eq_greedy), no word lost or repeated, the true maximality statement.",
 "C13": " Props/C13b: the layout hypothesis LayoutOK is discharged from the render itself (RespectsWidth per widget kind by mutual induction; exact exceptions with kernel-checked counterexamples), giving placement theorems with hypotheses on the inputs only.",
 "C15": " Props/C15b: ColumnWidget composition (Model/Column.lean): every character of every widget at its place, nothing else but blanks, disjoint rectangles, without assuming widgets respect their width.",
 "C16": " Props/C16b: state independence of ColumnWidget and EntryWidget; structure check of the rendering modules (no module-level state).",
}
for k, v in LATER.items():
    t = CLAIMED[k]; CLAIMED[k] = (t[0] + v,) + tuple(t[1:])
CLAIMED["C13"] = (CLAIMED["C13"][0], CLAIMED["C13"][1], CLAIMED["C13"][2].replace("Placement theorems assume every drawn grid respects the width it was rendered for (hypothesis LayoutOK, discharged for TextWidget items by C11).",
                  "The layout hypothesis of the placement theorems is discharged in Props/C13b except for forced column widths and the other exceptions stated there."))
CLAIMED["C16"] = (CLAIMED["C16"][0], CLAIMED["C16"][1], CLAIMED["C16"][2].replace("ColumnWidget only as used by CheckboxWidget;", "ColumnWidget / EntryWidget as top-level objects (Model/Column.lean), not as container items;"))
TECH = "Lean 4 theorems over a hand-written executable model + differential correspondence check model vs implementation + Python oracle on the implementation"
checks = []; na = []
for p in props:
    i = p["id"]
    if i in CLAIMED and os.path.exists(os.path.join(HERE, "harness", "props", i + ".py")) and os.path.exists(os.path.join(HERE, "lean", "Simpleline", "Props", i + ".lean")):
        text, ref, note = CLAIMED[i]
        if not note.startswith("Trusted") and not note.startswith("PARTIAL"): note = TB + note
        if note.startswith("PARTIAL"): note = note + " " + TB
        checks.append({"property_id": i, "quick_cmd": "./check %s --tier quick" % i, "thorough_cmd": "./check %s --tier thorough" % i,
                       "evidence_file": "evidence/%s.json" % i, "replay_cmd_template": "./check replay {path}", "engine": "lean-model+correspondence",
                       "level_claimed": {"category": "proof", "text": text, "design_ref": "DESIGN.md section " + ref},
                       "level_note": note, "technique": TECH})
    else:
        na.append({"property_id": i, "reason": "check not built yet (work in progress; see DESIGN.md section 7)"})
m = {"version": 1, "setup_cmd": "./setup.sh",
     "hooks": {"guard": "SIMPLELINE_VERIF", "enable": "no hooks: the harness imports simpleline from /repo's working tree unchanged and patches only below the repo (stdlib) and at the repo's own test seam",
               "baseline_off_cmd": "cd /repo && /venv/bin/python -m pytest -ra -q -p no:cacheprovider --timeout=900 --continue-on-collection-errors",
               "source_commits": [], "add_only": True},
     "engines": [{"name": "lean-model+correspondence", "path": "lean/ harness/ check", "serves_properties": [c["property_id"] for c in checks],
                  "kind_free_text": "Lean 4 model and theorems (lean/Simpleline), native model driver (lean/Driver), Python correspondence harness and oracles (harness/)"}],
     "checks": checks, "not_applicable": na,
     "notes": "fix: commits in /repo repair the defects recorded as 'fixed' in known_findings.json (F1-F12); see DESIGN.md sections 13, 16 and 17."}
json.dump(m, open(os.path.join(HERE, "MANIFEST.json"), "w"), indent=1)
print("claimed:", [c["property_id"] for c in checks], "not applicable:", [x["property_id"] for x in na])
