#!/bin/sh
# re-run the registered quick checks against every stored seeded change (applied to /repo, reverted straight afterwards) and refresh seeded/<name>/meta.json
# usage: tools/refresh_seeded.sh [name ...]      (default: all)
cd "$(dirname "$0")/.."
names="$@"; [ -z "$names" ] && names=$(ls seeded)
for n in $names; do
  props=$(python3 -c "import json;print(' '.join(json.load(open('seeded/$n/meta.json'))['check_results'].keys()))")
  echo -n "$n: "; timeout 5400 python3 tools/seed_eval.py --rerun $n $props 2>&1 | tail -1
  git -C /repo checkout -q -- . ; git -C /repo clean -fdq
done
git -C /repo status --porcelain
