#!/usr/bin/env python3
"""Verify a seeded change (patch + demonstration) in its scratch worktree, store it under /verif/seeded/<name>/, run the
registered check(s) of the property against it (applied to /repo, reverted straight afterwards) and record the result.

usage: tools/seed_eval.py <property> <name> <worktree> <patch.diff> <demo.py> <note.md> [extra property ids to run ...]
       tools/seed_eval.py --rerun <name> [property ids ...]       (re-run the checks against a stored change)
"""
import json, os, shutil, subprocess, sys, time

VERIF = os.path.dirname(os.path.dirname(os.path.abspath(__file__)))
PY = "/venv/bin/python"


def sh(cmd, cwd=None, env=None, timeout=1800):
    p = subprocess.run(cmd, cwd=cwd, env=env, shell=isinstance(cmd, str), stdout=subprocess.PIPE, stderr=subprocess.STDOUT, timeout=timeout)
    return p.returncode, p.stdout.decode("utf-8", "replace")


def run_demo(wt, demo):
    env = dict(os.environ, PYTHONPATH=wt + ":" + os.path.join(VERIF, "harness", "impl", "fakegi"))
    rc, out = sh([PY, "-m", "pytest", "-q", "-p", "no:cacheprovider", demo], cwd=wt, env=env, timeout=600)
    if "no tests ran" in out or "collected 0 items" in out:
        rc, out = sh([PY, demo], cwd=wt, env=env, timeout=600)
    return rc, out


def verify(wt, patch, demo):
    res = {}
    sh("git checkout -- . && git clean -fdq", cwd=wt)
    rc, out = sh(["git", "apply", "--check", patch], cwd=wt)
    if rc != 0: return {"error": "patch does not apply: " + out[-400:]}
    rc0, out0 = run_demo(wt, demo); res["demo_without_change"] = "pass" if rc0 == 0 else "FAIL"
    sh(["git", "apply", patch], cwd=wt)
    rc, out = sh([PY, "-m", "pytest", "-q", "-p", "no:cacheprovider", "tests/units/main"], cwd=wt, env=dict(os.environ, PYTHONPATH=wt))
    res["suite_with_change"] = out.strip().split("\n")[-1]
    rc1, out1 = run_demo(wt, demo); res["demo_with_change"] = "pass" if rc1 == 0 else "FAIL"
    res["demo_with_change_tail"] = out1[-600:]
    sh("git checkout -- . && git clean -fdq", cwd=wt)
    res["ok"] = rc0 == 0 and rc1 != 0 and "169 passed" in res["suite_with_change"]
    return res


def run_checks(name, props):
    d = os.path.join(VERIF, "seeded", name)
    patch = os.path.join(d, "patch.diff")
    # SEED_EVAL_WT=<scratch worktree>: the change is applied there and the checks import simpleline from it (VERIF_REPO) - several changes can then be evaluated
    # side by side; without it the change is applied to /repo itself and reverted afterwards
    target = os.environ.get("SEED_EVAL_WT") or "/repo"
    rc, out = sh(["git", "-C", target, "status", "--porcelain"])
    if out.strip(): raise SystemExit(target + " is not clean: " + out)
    rc, out = sh(["git", "-C", target, "apply", patch])
    if rc != 0: raise SystemExit("cannot apply to " + target + ": " + out)
    env = dict(os.environ, VERIF_REPO=target) if target != "/repo" else None
    results = {}
    try:
        for p in props:
            t = time.time()
            rc, out = sh(["./check", p, "--tier", "quick"], cwd=VERIF, env=env, timeout=3000)
            lines = [l for l in out.split("\n") if l.startswith("VIOLATION")]
            summary = [l for l in out.split("\n") if l.startswith(p + " tier=")]
            verdict = "missed"
            if rc == 1 and lines:
                verdict = "caught: concrete failing input" if "no-failing-input-found" not in lines[0] else "caught: proof/correspondence broken, no failing input found"
            replay = None
            if lines:
                rp = lines[0].split("replay=")[1].split()[0]
                try:
                    r = json.load(open(os.path.join(VERIF, rp)))
                    replay = {k: r.get(k) for k in ("kind", "verdict", "case") if k in r}
                    if "correspondence" in r and isinstance(r["correspondence"], dict):
                        replay["first_difference"] = r["correspondence"].get("first_difference"); replay["case"] = r["correspondence"].get("case")
                except Exception as e:
                    replay = {"error": repr(e)}
            results[p] = {"exit": rc, "verdict": verdict, "violation_line": lines[0] if lines else None, "summary": summary[-1] if summary else out[-300:],
                          "wall_s": round(time.time() - t, 1), "replay": replay}
    finally:
        sh(["git", "-C", target, "checkout", "--", "."])
        sh(["git", "-C", target, "clean", "-fdq"])
    return results


def main():
    a = sys.argv[1:]
    if a[0] == "--rerun":
        name = a[1]; d = os.path.join(VERIF, "seeded", name)
        meta = json.load(open(os.path.join(d, "meta.json")))
        props = a[2:] or [meta["property"]]
        meta.setdefault("check_results", {}).update(run_checks(name, props))
        json.dump(meta, open(os.path.join(d, "meta.json"), "w"), indent=1)
        print(json.dumps({p: meta["check_results"][p]["verdict"] for p in props}))
        return
    prop, name, wt, patch, demo, note = a[:6]; extra = a[6:]
    v = verify(wt, patch, demo)
    print("verification:", json.dumps({k: v[k] for k in v if k != "demo_with_change_tail"}))
    if not v.get("ok"):
        print("NOT KEPT"); print(v.get("demo_with_change_tail", "")); return 1
    d = os.path.join(VERIF, "seeded", name); os.makedirs(d, exist_ok=True)
    shutil.copy(patch, os.path.join(d, "patch.diff")); shutil.copy(demo, os.path.join(d, "demo.py")); shutil.copy(note, os.path.join(d, "note.md"))
    meta = {"property": prop, "name": name, "source": "independent sub-agent given only the property text and a scratch worktree",
            "needs_to_manifest": open(note).read()[:1500], "verified": {k: v[k] for k in ("demo_without_change", "suite_with_change", "demo_with_change")},
            "verification_commands": ["git apply patch.diff (scratch worktree)", "PYTHONPATH=<worktree> /venv/bin/python -m pytest -q -p no:cacheprovider tests/units/main  -> 169 passed",
                                      "demo.py fails with the change, passes without it"]}
    meta["check_results"] = run_checks(name, [prop] + extra)
    json.dump(meta, open(os.path.join(d, "meta.json"), "w"), indent=1)
    print(json.dumps({p: (r["verdict"], r["summary"]) for p, r in meta["check_results"].items()}, indent=1))


if __name__ == "__main__":
    sys.exit(main())
