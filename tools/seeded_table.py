#!/usr/bin/env python3
"""Print the table of seeded changes and what the checks report on them (from seeded/*/meta.json)."""
import json, glob, os, re
HERE = os.path.dirname(os.path.dirname(os.path.abspath(__file__)))
rows = []
for f in sorted(glob.glob(os.path.join(HERE, "seeded", "*", "meta.json"))):
    m = json.load(open(f))
    note = m["needs_to_manifest"]
    first = next((l.strip("# *-").strip() for l in note.split("\n") if l.strip() and not l.startswith("```")), "")
    res = []
    for p, r in m["check_results"].items():
        res.append("%s: %s" % (p, r["verdict"].replace("caught: ", "")))
    rows.append("| %s | %s | %s | %s |" % (m["name"], m["property"], first[:140].replace("|", "/"), "; ".join(res)))
print("| seeded change | property | what it is (first line of the author's note) | verdict of `./check` (quick tier) |")
print("|---|---|---|---|")
print("\n".join(rows))
