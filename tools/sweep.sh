#!/bin/sh
# run every check with several seeds on the current tree; print only the summary lines of runs that are not clean
cd "$(dirname "$0")/.."
for sd in "$@"; do
  for p in C01 C02 C03 C04 C05 C06 C07 C08 C09 C10 C11 C12 C13 C14 C15 C16 C17 C18 C19 C20; do
    out=$(VERIF_SEED=$sd timeout 2400 ./check $p 2>&1); rc=$?
    if [ $rc -ne 0 ]; then echo "seed=$sd $p exit=$rc"; echo "$out" | grep -v '^KNOWN' | tail -2 | cut -c1-300; fi
  done
  echo "seed $sd done"
done
