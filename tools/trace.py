#!/usr/bin/env python3
"""debugging aid: run the case of a replay file (or its original_case with --orig) on the implementation and print the adapter's full observation log"""
import sys, json, importlib, os
sys.path.insert(0, os.path.dirname(os.path.dirname(os.path.abspath(__file__))))
a = [x for x in sys.argv[1:] if not x.startswith("--")]
data = json.load(open(a[0]))
mod = importlib.import_module("harness.props." + data["property"])
case = data["original_case"] if "--orig" in sys.argv else (data.get("case") or data["correspondence"]["case"])
case = mod.with_cc(case) if hasattr(mod, "with_cc") else case
obs = mod.run_impl(case)
n = int(a[1]) if len(a) > 1 else 200
for i, (ev, ctx) in enumerate(obs.get("xlog", [])[:n]):
    print(i, ev, {k: ctx[k] for k in ("depth", "lvl", "stack", "reader", "run_loop") if k in ctx})
print("outcome", obs.get("outcome")); print("verdict:", mod.monitor(case, obs))
if "--model" in sys.argv:
    from harness.driver import run_model
    m = run_model([mod.model_case(case)])[0]
    print("model flags", m.get("flags"), "noncalm", m.get("noncalm"), "outcome", m.get("outcome"))
