#!/venv/bin/python
"""Differential validation of lean/Simpleline/Model/DialogViews.lean (driver op `dialogview`) and of
lean/Simpleline/Model/EventQueueObj.lean (driver op `equeue`) against the real classes
simpleline/render/adv_widgets.py and simpleline/event_loop/event_queue.py.

    cd /verif && VERIF_REPO=/tmp/mut/clean PYTHONPATH=/tmp/mut/clean LANG=C /venv/bin/python tools/views_diff.py \
        [--seed N] [--n N] [--nq N] [--driver "cmd ..."] [--show K]

Dialogs: for random messages (words, long words, tabs, newlines, non-ASCII, empty) and widths 1..100 the real dialog is
built (`App.initialize()` first), `refresh()`, `window.render(w)`, `window.get_lines()`, `title`, `str(prompt())`
(PasswordDialog: the text passed to `PasswordInputHandler.get_input`, captured by a stand-in handler, and the `None`
returned) are compared with the model.  HelpScreen reads a real temporary file.
EventQueue: random call sequences on a real `EventQueue`; after each call its result (signal identity, None, True/False,
EventQueueError; a call on an empty queue is answered "empty" without calling, as it would block) and the list
`_queue.queue` as (priority, order) pairs; at the end the sorted sources.

The driver is any command that reads one JSON case per line and prints one JSON result per line; by default the scratch
main /tmp/views/main.lean run by `lake env lean --run` (until the ops are registered in Driver/Main.lean; then use
--driver /verif/lean/.lake/build/bin/sldriver).
"""
import argparse, json, os, random, subprocess, sys, tempfile
sys.path.insert(0, os.path.dirname(os.path.dirname(os.path.abspath(__file__))))
os.environ.setdefault("LANG", "C")
if "VERIF_REPO" not in os.environ:
    sys.stderr.write("warning: VERIF_REPO is not set\n")

from harness.charclass import char_class, strings_of

# every literal the model itself renders must be classified too
MODEL_LITERALS = ["Error", "Password", "Question", "Help", "Enter your passphrase", "The help is not available."]

WORDS = ["a", "to", "the", "help", "error", "disk", "Installation", "passphrase", "x" * 17, "supercalifragilistic" * 3,
         "žluťoučký", "kůň", "日本語", "naïve", "Ελληνικά", "a-b-c", "re-use", "don't", "(ok)", "1)", "42", "é"]
SEPS = [" ", " ", " ", "  ", "\t", "\n", "\n\n", " \n", " ", " ", "\x0b", "\x0c", "\x1c", "-", ""]


def gen_msg(rnd):
    k = rnd.random()
    if k < 0.06: return ""
    if k < 0.10: return rnd.choice([" ", "\n", "\t", "  \n ", "\n\n"])
    n = rnd.choice([1, 1, 2, 3, 5, 8, 13, 30])
    s = ""
    for i in range(n):
        s += rnd.choice(WORDS)
        if i + 1 < n or rnd.random() < 0.15: s += rnd.choice(SEPS)
    if rnd.random() < 0.1: s = rnd.choice(SEPS) + s
    return s


def gen_width(rnd):
    return rnd.choice([1, 2, 3, 4, 5, 7, 8, 9, 10, 20, 79, 80, 100, rnd.randint(1, 100), rnd.randint(1, 100), rnd.randint(1, 30)])


KINDS = ["error", "password", "yesno", "help", "getinput", "getpassinput"]


def gen_dialog(rnd):
    kind = rnd.choice(KINDS)
    msg = gen_msg(rnd)
    if kind in ("password", "help") and rnd.random() < 0.2: msg = None
    return {"kind": kind, "msg": msg, "w": gen_width(rnd), "refreshes": rnd.choice([1, 1, 2, 3])}


class _StubHandler:
    """stand-in for PasswordInputHandler: records the prompt, no input arrives"""
    seen = None

    def __init__(self, callback=None, source=None): pass
    def set_pass_func(self, f): pass
    def get_input(self, prompt): _StubHandler.seen = prompt
    def wait_on_input(self): pass
    def input_successful(self): return False


def run_real_dialog(c, tmpdir):
    from simpleline.render import adv_widgets as aw
    kind, msg, w = c["kind"], c["msg"], c["w"]
    model_msg = msg
    if kind == "error": d = aw.ErrorDialog(msg)
    elif kind == "password": d = aw.PasswordDialog() if msg is None else aw.PasswordDialog(msg)
    elif kind == "yesno": d = aw.YesNoDialog(msg)
    elif kind == "help":
        if msg is None: d = aw.HelpScreen(None)
        else:
            p = os.path.join(tmpdir, "help.txt")
            with open(p, "w", encoding="utf-8", newline="") as f: f.write(msg)
            with open(p, "r", encoding="utf-8") as f: model_msg = f.read()     # the model's parameter is what read() returns
            d = aw.HelpScreen(p)
    elif kind == "getinput": d = aw.GetInputScreen(msg)
    elif kind == "getpassinput": d = aw.GetPasswordInputScreen(msg)
    else: raise SystemExit(kind)
    out = {"title": d.title}
    for _ in range(c.get("refreshes", 1)): d.refresh()          # (a dialog that is shown again is refreshed again: its window is built anew each time)
    try:
        d.window.render(w)
        out["lines"] = list(d.window.get_lines())
    except ValueError: out["err"] = "ValueError"
    except ZeroDivisionError: out["err"] = "ZeroDivision"
    if kind == "password":
        _StubHandler.seen = None
        real = aw.PasswordInputHandler
        aw.PasswordInputHandler = _StubHandler
        try: r = d.prompt()
        finally: aw.PasswordInputHandler = real
        out["prompt"] = None if r is None else str(r)
        out["passprompt"] = _StubHandler.seen
    else:
        out["prompt"] = str(d.prompt())
        out["passprompt"] = None
    if kind == "getpassinput" and d.hide_user_input is not True: out["hide"] = False
    mkind = "getinput" if kind == "getpassinput" else kind
    mcase = {"op": "dialogview", "kind": mkind, "msg": model_msg, "w": w}
    mcase["cc"] = char_class(*strings_of(mcase), *MODEL_LITERALS)
    return out, mcase


# ---------------------------------------------------------------- EventQueue

def gen_queue(rnd):
    nsrc = rnd.choice([1, 2, 3, 5])
    prios = rnd.choice([[0], [0, 1], [-5, 0, 5, 20], list(range(-3, 4))])
    ops = []
    for _ in range(rnd.choice([3, 8, 20, 40, 80])):
        k = rnd.random()
        if k < 0.18: ops.append(["put", rnd.choice(prios)])
        elif k < 0.30: ops.append(["get"])
        elif k < 0.40: ops.append(["get_top", rnd.choice(prios)])
        elif k < 0.55: ops.append(["add_source", rnd.randrange(nsrc)])
        elif k < 0.68: ops.append(["remove_source", rnd.randrange(nsrc)])
        elif k < 0.80: ops.append(["contains", rnd.randrange(nsrc)])
        else: ops.append(["put_if", rnd.choice(prios), rnd.randrange(nsrc)])
    return {"op": "equeue", "start": rnd.choice([0, 0, 0, 7, 2 ** 40]), "ops": ops}


class _Src:
    """a signal source: an arbitrary hashable object (every other one is falsy: an empty container-like object; every third one is identified by its value -
    equal objects are the same source, and a fresh equal object is handed over at every use)"""
    def __init__(self, k): self.k = k
    def __len__(self): return 0 if self.k % 2 else 1
class _ValSrc(_Src):
    def __eq__(self, o): return isinstance(o, _ValSrc) and o.k == self.k
    def __hash__(self): return hash(("valsrc", self.k))


def run_real_queue(c):
    from simpleline.event_loop.event_queue import EventQueue, EventQueueError
    from simpleline.event_loop.signals import AbstractSignal

    class S(AbstractSignal):
        def __init__(self, prio, ident):
            super().__init__(None, priority=prio)
            self.ident = ident

    q = EventQueue()
    q._order_counter = c["start"]
    srcs = {}
    def src(k): return _ValSrc(k) if k % 3 == 2 else srcs.setdefault(k, _Src(k))
    n = 0
    out = []
    for o in c["ops"]:
        if o[0] == "put":
            q.enqueue(S(o[1], n)); n += 1; r = None
        elif o[0] == "put_if":
            r = q.enqueue_if_source_belongs(S(o[1], n), src(o[2])); n += 1
        elif o[0] == "get":
            r = "empty" if q.empty() else q.get().ident
        elif o[0] == "get_top":
            if q.empty(): r = "empty"
            else:
                s = q.get_top_event_if_priority(o[1]); r = None if s is None else s.ident
        elif o[0] == "add_source": r = q.add_source(src(o[1]))
        elif o[0] == "remove_source":
            try: r = q.remove_source(src(o[1]))
            except EventQueueError: r = "EventQueueError"
        elif o[0] == "contains": r = q.contains_source(src(o[1]))
        else: raise SystemExit(o)
        out.append({"r": r, "heap": [[it.signal.priority, it.order] for it in q._queue.queue]})
    return {"out": out, "sources": sorted(s.k for s in q._contained_screens)}


# ---------------------------------------------------------------- driver

def run_model(cases, driver):
    inp = "".join(json.dumps(c) + "\n" for c in cases)
    p = subprocess.run(driver, input=inp, capture_output=True, text=True, cwd="/verif/lean", shell=isinstance(driver, str))
    lines = [l for l in p.stdout.split("\n") if l.strip()]
    if len(lines) != len(cases):
        raise SystemExit("driver answered %d lines for %d cases\n%s" % (len(lines), len(cases), p.stderr[-2000:]))
    return [json.loads(l) for l in lines]


def main():
    ap = argparse.ArgumentParser()
    ap.add_argument("--seed", type=int, default=1)
    ap.add_argument("--n", type=int, default=3000)
    ap.add_argument("--nq", type=int, default=1000)
    ap.add_argument("--driver", default="lake env lean --run /tmp/views/main.lean")
    ap.add_argument("--show", type=int, default=5)
    a = ap.parse_args()
    rnd = random.Random(a.seed)

    from simpleline import App
    App.initialize()

    bad = 0
    per_kind = {}
    with tempfile.TemporaryDirectory() as tmp:
        reals, mcases, cases = [], [], []
        # every kind at every width 1..100 once, then random ones
        sweep = [{"kind": k, "msg": gen_msg(rnd), "w": w} for k in KINDS for w in range(1, 101)]
        for c in sweep + [gen_dialog(rnd) for _ in range(a.n)]:
            r, m = run_real_dialog(c, tmp)
            cases.append(c); reals.append(r); mcases.append(m)
            per_kind[c["kind"]] = per_kind.get(c["kind"], 0) + 1
    models = run_model(mcases, a.driver)
    for c, r, m in zip(cases, reals, models):
        if r != m:
            bad += 1
            if bad <= a.show: print("DISAGREE dialog", json.dumps(c), "\n  real ", json.dumps(r), "\n  model", json.dumps(m))
    print("dialog views: %d cases compared (%s), %d disagreements" % (len(cases), ", ".join("%s %d" % kv for kv in sorted(per_kind.items())), bad))

    qcases = [gen_queue(rnd) for _ in range(a.nq)]
    qreal = [run_real_queue(c) for c in qcases]
    qmodel = run_model(qcases, a.driver)
    qbad = 0
    for c, r, m in zip(qcases, qreal, qmodel):
        if r != m:
            qbad += 1
            if qbad <= a.show: print("DISAGREE equeue", json.dumps(c), "\n  real ", json.dumps(r), "\n  model", json.dumps(m))
    print("event queue object: %d sequences (%d calls) compared, %d disagreements" % (len(qcases), sum(len(c["ops"]) for c in qcases), qbad))
    sys.exit(1 if bad or qbad else 0)


if __name__ == "__main__":
    main()
